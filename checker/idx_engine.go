package main

import (
	"fmt"
	"go/token"
	"go/types"
	"os"
	"path/filepath"
	"sort"
	"strings"

	"golang.org/x/tools/go/ssa"
)

// idxEngine enumerates panic-capable instructions and discharges them (DESIGN.md 2.2).
type idxEngine struct {
	c          *Ctx
	eff        *Effects
	provers    map[*ssa.Function]*prover
	tis        map[*ssa.Function]*termIndex
	fieldLB    map[*types.Var]*fieldLBState
	resLB      map[*ssa.Function]*resLBState
	mono       map[*types.Var]*bool
	requires   map[*ssa.Function][]*requireClause
	invOK      map[*types.Var]bool
	fills      map[*ssa.Function]fillSummary
	reflPanics *reflEval // the reflective-fill evaluation of Decoration.Populate (panic verdicts of its helpers)
	reflTried  bool
	resNN      map[string]bool
	nondec     map[*types.Var]bool
	immut      map[*types.Var]bool
	Obls       []*idxOb
}

type fieldLBState struct {
	done bool
	lb   int64
	ok   bool
}
type resLBState struct {
	done bool
	lb   int64
	ok   bool
}

// An idxOb is one obligation of the panic-freedom analysis.
type idxOb struct {
	Fn      *ssa.Function
	In      ssa.Instruction
	Kind    string // IDX SLC NEG DIV TA PANIC NILRES
	What    string // construct description (position free)
	Goals   []constraint
	OK      bool
	Trivial bool
	How     string
	Lifted  bool
}

func (c *Ctx) Idx() *idxEngine {
	if c.idx != nil {
		return c.idx
	}
	ix := &idxEngine{c: c, eff: c.Effects(), provers: map[*ssa.Function]*prover{}, tis: map[*ssa.Function]*termIndex{},
		fieldLB: map[*types.Var]*fieldLBState{}, resLB: map[*ssa.Function]*resLBState{}, mono: map[*types.Var]*bool{}, requires: map[*ssa.Function][]*requireClause{}, fills: map[*ssa.Function]fillSummary{}, nondec: map[*types.Var]bool{}, immut: map[*types.Var]bool{}}
	c.idx = ix
	return ix
}

// ---- field facts -------------------------------------------------------------

// fieldLowerBound: a constant every value ever stored to integer field f is >= (zero value included).
func (ix *idxEngine) fieldLowerBound(f *types.Var) (int64, bool) {
	if !isIntType(f.Type()) {
		return 0, false
	}
	st := ix.fieldLB[f]
	if st != nil {
		if !st.done {
			return 0, true // coinductive assumption while checking the writers
		}
		return st.lb, st.ok
	}
	st = &fieldLBState{}
	ix.fieldLB[f] = st
	ok := true
	for _, fs := range ix.c.StoresTo(f) {
		p := ix.proverFor(fs.Fn)
		goal := leq(linConst(0), p.linOf(fs.St.Val), "field >= 0")
		good, _ := p.prove(goal, fs.St, nil, 0)
		if !good {
			// the stored value may be a parameter of an internal helper: require it of the callers
			good, _ = ix.liftGoal(fs.Fn, goal, fs.St, 0)
		}
		if !good {
			ok = false
			break
		}
	}
	// whole-struct overwrites could install anything: only accept if the owner struct is never stored whole
	// through a non-local pointer with a non-fresh value (cells are copied whole, which preserves their own invariants)
	st.done, st.lb, st.ok = true, 0, ok
	return st.lb, st.ok
}

// monotoneSlice: every store to slice field f appends to the field's own previous value (or initialises a fresh object).
func (ix *idxEngine) monotoneSlice(f *types.Var) bool {
	if m := ix.mono[f]; m != nil {
		return *m
	}
	res := true
	ix.mono[f] = &res
	if _, ok := f.Type().Underlying().(*types.Slice); !ok {
		res = false
		return false
	}
	n := 0
	for _, fs := range ix.c.StoresTo(f) {
		n++
		if fs.Fresh {
			continue
		}
		call, ok := isBuiltinCall(fs.St.Val, "append")
		if !ok {
			res = false
			break
		}
		fl, base := loadedField(call.Call.Args[0])
		if fl != f || base != fs.Base {
			res = false
			break
		}
	}
	if n == 0 {
		res = false
	}
	// whole-struct stores through pointers (other than into slice elements, which move cells/rows as a unit)
	if res {
		owner := ix.c.ownerOf(f)
		tname := strings.SplitN(owner, ".", 2)[0]
		for _, fn := range ix.c.LibFuncs() {
			eachInstr(fn, func(in ssa.Instruction) {
				st, ok := in.(*ssa.Store)
				if !ok {
					return
				}
				n := namedOf(st.Val.Type())
				if n == nil || n.Obj().Name() != tname {
					return
				}
				if _, isPtr := st.Val.Type().(*types.Pointer); isPtr {
					return
				}
				switch st.Addr.(type) {
				case *ssa.Alloc, *ssa.IndexAddr:
					return
				}
				res = false
			})
		}
	}
	return res
}

// structural invariant: len(ATable.columns) == ATable.nColumns + 1
type structInv struct {
	Slice, Int *types.Var
	Off        int64
}

func (ix *idxEngine) invariants() []structInv {
	at := ix.c.Named("", "ATable")
	if at == nil {
		return nil
	}
	cols, nc := ix.c.Field(at, "columns"), ix.c.Field(at, "nColumns")
	if cols == nil || nc == nil {
		return nil
	}
	return []structInv{{cols, nc, 1}}
}

// lenFacts: extra facts about the term t = len(v).
func (ix *idxEngine) lenFacts(p *prover, v ssa.Value, t string, at ssa.Instruction) []constraint {
	var out []constraint
	f, base := loadedField(v)
	if f != nil {
		vi, _ := v.(ssa.Instruction)
		if ix.monotoneSlice(f) && vi != nil {
			bc := p.canon(base)
			eachInstr(p.fn, func(in ssa.Instruction) {
				u, ok := in.(*ssa.UnOp)
				if !ok || ssa.Value(u) == v {
					return
				}
				f2, b2 := loadedField(u)
				if f2 != f || p.canon(b2) != bc {
					return
				}
				ot := p.lenOf(u)
				if instrDominates(in, vi) {
					out = append(out, leq(ot, linTerm(t), "slice field "+f.Name()+" never shrinks (earlier load)"))
				} else if instrDominates(vi, in) {
					out = append(out, leq(linTerm(t), ot, "slice field "+f.Name()+" never shrinks (later load)"))
				}
			})
		}
		for _, inv := range ix.invariants() {
			if inv.Slice != f || vi == nil {
				continue
			}
			if !ix.invariantHolds(inv) {
				continue
			}
			bc := p.canon(base)
			eachInstr(p.fn, func(in ssa.Instruction) {
				u, ok := in.(*ssa.UnOp)
				if !ok {
					return
				}
				f2, b2 := loadedField(u)
				if f2 != inv.Int || p.canon(b2) != bc {
					return
				}
				if p.sameEpoch(vi, in, inv) {
					nt := p.linOf(u)
					out = append(out, leq(linTerm(t), nt.add(linConst(inv.Off)), "invariant len("+inv.Slice.Name()+") == "+inv.Int.Name()+"+1"),
						leq(nt.add(linConst(inv.Off)), linTerm(t), "invariant"))
				}
			})
		}
	}
	// struct-valued call results whose field is a parameter of the callee (ForColumnWidths)
	out = append(out, ix.resultFieldFacts(p, v, t)...)
	out = append(out, ix.resultLenFacts(p, v, t, at)...)
	out = append(out, ix.heapLoopFacts(p, v, t, at)...)
	out = append(out, ix.localElemLenFacts(p, v, t, at)...)
	return out
}

// sameEpoch: the two loads observe the same state of both invariant fields (nothing in between may write either).
func (p *prover) sameEpoch(a, b ssa.Instruction, inv structInv) bool {
	first, second := a, b
	if !instrDominates(a, b) {
		if !instrDominates(b, a) {
			return false
		}
		first, second = b, a
	}
	for _, mid := range p.between(first, second) {
		for _, f := range []*types.Var{inv.Slice, inv.Int} {
			if p.mayWrite(mid, memLoc{kind: "field", field: f}, f.Type(), nil) {
				return false
			}
		}
	}
	return true
}

// invariantHolds: every function that stores either field of a non-fresh object re-establishes the invariant
// before anything can observe it (both stores in one block with no call between, and len(new slice) == new int + off).
func (ix *idxEngine) invariantHolds(inv structInv) bool {
	if ix.invOK == nil {
		ix.invOK = map[*types.Var]bool{}
	}
	if v, ok := ix.invOK[inv.Slice]; ok {
		return v
	}
	ix.invOK[inv.Slice] = true // coinductive while checking
	ok := true
	byFn := map[*ssa.Function][]fieldStore{}
	for _, fs := range append(ix.c.StoresTo(inv.Slice), ix.c.StoresTo(inv.Int)...) {
		byFn[fs.Fn] = append(byFn[fs.Fn], fs)
	}
	for fn, stores := range byFn {
		if !ix.invariantSimple(fn, inv, stores) && !ix.invariantAtExits(fn, inv, stores) {
			ok = false
			if os.Getenv("TABDBG") != "" {
				fmt.Fprintf(os.Stderr, "invariant %s/%s not re-established by %s\n", inv.Slice.Name(), inv.Int.Name(), FuncName(fn))
			}
		}
	}
	ix.invOK[inv.Slice] = ok
	return ok
}

// invariantSimple: the plain shapes - a constructor storing both fields of its fresh object once, or a writer
// storing both fields of an existing object side by side with no call in between.
func (ix *idxEngine) invariantSimple(fn *ssa.Function, inv structInv, stores []fieldStore) bool {
	ok := true
	for once := true; once; once = false {
		var ss, is *fieldStore
		fresh := true
		for i := range stores {
			s := &stores[i]
			if !s.Fresh {
				fresh = false
			}
			if s.Field == inv.Slice {
				if ss != nil {
					ok = false
				}
				ss = s
			} else {
				if is != nil {
					ok = false
				}
				is = s
			}
		}
		p := ix.proverFor(fn)
		if fresh {
			// constructor: missing int store means zero
			if ss == nil {
				ok = false
				continue
			}
			n := linConst(0)
			if is != nil {
				n = p.linOf(is.St.Val)
			}
			g1 := leq(p.lenOf(ss.St.Val), n.add(linConst(inv.Off)), "inv")
			g2 := leq(n.add(linConst(inv.Off)), p.lenOf(ss.St.Val), "inv")
			a, _ := p.prove(g1, ss.St, nil, 0)
			b, _ := p.prove(g2, ss.St, nil, 0)
			if !a || !b {
				ok = false
			}
			continue
		}
		if ss == nil || is == nil || ss.St.Block() != is.St.Block() || ss.Base != is.Base {
			ok = false
			continue
		}
		first, second := ss.St, is.St
		if instrIndex(first) > instrIndex(second) {
			first, second = second, first
		}
		for _, mid := range p.between(first, second) {
			if _, isCall := mid.(ssa.CallInstruction); isCall {
				if cc := callCommon(mid); cc != nil {
					if _, isB := cc.Value.(*ssa.Builtin); !isB {
						ok = false
					}
				}
			}
		}
		g1 := leq(p.lenOf(ss.St.Val), p.linOf(is.St.Val).add(linConst(inv.Off)), "inv")
		g2 := leq(p.linOf(is.St.Val).add(linConst(inv.Off)), p.lenOf(ss.St.Val), "inv")
		a, _ := p.prove(g1, second, nil, 0)
		b, _ := p.prove(g2, second, nil, 0)
		if !a || !b {
			ok = false
		}
	}
	return ok
}

// ---- call summaries ---------------------------------------------------------------

// moduleCallees: the analysable callees of a call, or nil if any callee is outside the module / unknown.
func (ix *idxEngine) moduleCallees(fn *ssa.Function, ci ssa.CallInstruction) []*ssa.Function {
	cc := ci.Common()
	if _, ok := cc.Value.(*ssa.Builtin); ok {
		return nil
	}
	if cc.StaticCallee() == nil && ix.eff.siteCallsUnknown(fn, ci) {
		return nil
	}
	cs := ix.eff.calleesAt(fn, ci)
	if len(cs) == 0 {
		return nil
	}
	var out []*ssa.Function
	for _, f := range cs {
		f = skipWrappers(f)
		if !inModule(f) || len(f.Blocks) == 0 {
			return nil
		}
		out = append(out, f)
	}
	return out
}

// skipWrappers follows synthetic promoted-method wrappers / thunks to the declared method.
func skipWrappers(f *ssa.Function) *ssa.Function {
	for i := 0; i < 5 && f != nil && f.Synthetic != "" && f.Parent() == nil; i++ {
		var next *ssa.Function
		n := 0
		eachInstr(f, func(in ssa.Instruction) {
			if ci, ok := in.(ssa.CallInstruction); ok {
				if g := ci.Common().StaticCallee(); g != nil {
					next = g
					n++
				} else {
					n += 2
				}
			}
		})
		if n != 1 || next == nil {
			return f
		}
		f = next
	}
	return f
}

// resultLowerBound: constant lower bound of an integer call result, from the callees' returns.
func (ix *idxEngine) resultLowerBound(fn *ssa.Function, call *ssa.Call) (int64, bool) {
	if !isIntType(call.Type()) {
		return 0, false
	}
	if f := call.Call.StaticCallee(); f != nil {
		switch funcPkgPath(f) + "." + f.Name() {
		case "github.com/mattn/go-runewidth.StringWidth", "github.com/mattn/go-runewidth.RuneWidth",
			"unicode/utf8.RuneCountInString", "unicode/utf8.RuneCount", "strings.Count":
			return 0, true // documented non-negative results (dependency assumption)
		}
	}
	callees := ix.moduleCallees(fn, call)
	if len(callees) == 0 {
		// trusted-interface invokes that resolve (through wrappers embedding the interface) only to module code
		return 0, false
	}
	for _, f := range callees {
		lb, ok := ix.funcResultLB(f)
		if !ok || lb < 0 {
			return 0, false
		}
	}
	return 0, true
}

func (ix *idxEngine) funcResultLB(f *ssa.Function) (int64, bool) {
	st := ix.resLB[f]
	if st != nil {
		if !st.done {
			return 0, true // recursion through promoted wrappers: coinductive
		}
		return st.lb, st.ok
	}
	st = &resLBState{}
	ix.resLB[f] = st
	ok := true
	p := ix.proverFor(f)
	rets := returnsOf(f)
	if len(rets) == 0 {
		ok = false
	}
	for _, r := range rets {
		v := results(r)[0]
		good, _ := p.prove(leq(linConst(0), p.linOf(v), "result >= 0"), r, nil, 0)
		if !good {
			ok = false
		}
	}
	st.done, st.lb, st.ok = true, 0, ok
	return 0, ok
}

func (ix *idxEngine) resultLenLowerBound(call *ssa.Call) (int64, bool) { return 0, false }

// callMayWrite: can the call change the given location?
func (ix *idxEngine) callMayWrite(fn *ssa.Function, ci ssa.CallInstruction, loc memLoc, localSlice ssa.Value) bool {
	cc := ci.Common()
	if loc.kind == "elem" {
		if localSlice == nil {
			return true // a slice this function did not make: any call may write its elements
		}
		for _, a := range cc.Args {
			if localSlice != nil && sameSlice(a, localSlice) {
				return true
			}
		}
		if mc, ok := cc.Value.(*ssa.MakeClosure); ok {
			for _, b := range mc.Bindings {
				if localSlice != nil && sameSlice(b, localSlice) {
					return true
				}
			}
		}
		return false
	}
	// field
	if cc.StaticCallee() == nil && ix.eff.siteCallsUnknown(fn, ci) {
		return true
	}
	for _, f := range ix.eff.calleesAt(fn, ci) {
		s := ix.eff.sums[f]
		if s == nil {
			continue // standard library: does not touch module structs (assumption)
		}
		if s.CallsUnknown {
			return true
		}
		for _, ef := range s.Effects {
			if ef.What != "store" {
				continue
			}
			if len(ef.Fields) > 0 && ef.Fields[len(ef.Fields)-1] == loc.field {
				// a store into a struct allocated by the callee itself never reaches the caller (origin local is dropped)
				return true
			}
			if len(ef.Fields) == 0 && strings.HasPrefix(ef.Path, "*(") {
				// store through a plain pointer of unknown target: could be the field if types match
				if pt, ok := ef.At.(*ssa.Store); ok {
					if ptr, ok := pt.Addr.Type().Underlying().(*types.Pointer); ok && types.Identical(ptr.Elem(), loc.field.Type()) {
						return true
					}
				}
			}
		}
	}
	return false
}

// ---- obligations -----------------------------------------------------------------

// internalAPI: exported-but-internal functions (texttable/decoration/doc.go: only registry.go and styles.go
// are public API of that package; texttable's line helpers exist for the renderer only).
func (ix *idxEngine) isEntry(fn *ssa.Function) bool {
	if fn.Parent() != nil || fn.Synthetic != "" {
		return false
	}
	obj := fn.Object()
	if obj == nil || !obj.Exported() {
		return false
	}
	if recv := fn.Signature.Recv(); recv != nil {
		n := namedOf(recv.Type())
		if n == nil || !n.Obj().Exported() {
			return false
		}
	}
	pp := funcPkgPath(fn)
	if pp == pkgPath("examples") {
		return false
	}
	if pp == pkgPath("texttable/decoration") {
		file := filepath.Base(ix.c.Fset.Position(fn.Pos()).Filename)
		switch file {
		case "registry.go", "styles.go":
			return true
		}
		return fn.Name() == "Populate"
	}
	if pp == pkgPath("texttable") {
		switch fn.Name() {
		case "RowToLinesOfWidthStrings", "CellPropertyExtractDimensions", "CellPropertyExtractLinesWidths":
			return false
		}
	}
	if pp == pkgPath("markdown") && fn.Name() == "CellPropertyExtractWidth" {
		return false
	}
	// debug formatting (%#v) is not part of C09's quantifier
	if fn.Name() == "GoString" {
		return false
	}
	return true
}

func (ix *idxEngine) enumerate(fn *ssa.Function) []*idxOb {
	var out []*idxOb
	p := ix.proverFor(fn)
	counts := map[string]int{}
	mk := func(in ssa.Instruction, kind, what string, goals []constraint) *idxOb {
		counts[kind+what]++
		if n := counts[kind+what]; n > 1 {
			what = fmt.Sprintf("%s #%d", what, n)
		}
		o := &idxOb{Fn: fn, In: in, Kind: kind, What: what, Goals: goals}
		out = append(out, o)
		return o
	}
	eachInstr(fn, func(in ssa.Instruction) {
		switch x := in.(type) {
		case *ssa.IndexAddr:
			ix.indexOb(p, mk, in, x.X, x.Index)
		case *ssa.Index:
			ix.indexOb(p, mk, in, x.X, x.Index)
		case *ssa.Slice:
			ix.sliceOb(p, mk, x)
		case *ssa.MakeSlice:
			if _, ok := constInt(x.Len); ok {
				return
			}
			g := []constraint{leq(linConst(0), p.linOf(x.Len), "make: len >= 0")}
			if x.Cap != x.Len {
				g = append(g, leq(p.linOf(x.Len), p.linOf(x.Cap), "make: len <= cap"))
			}
			mk(in, "NEG", "make "+shortType(x.Type())+" size "+describe(p, x.Len), g)
		case *ssa.BinOp:
			if (x.Op == token.QUO || x.Op == token.REM) && isIntType(x.Type()) {
				if k, ok := constInt(x.Y); ok && k != 0 {
					return
				}
				o := mk(in, "DIV", "divide by "+describe(p, x.Y), []constraint{leq(linConst(1), p.linOf(x.Y), "divisor > 0")})
				_ = o
			}
		case *ssa.TypeAssert:
			if !x.CommaOk {
				mk(in, "TA", "assert "+describe(p, x.X)+".("+shortType(x.AssertedType)+")", nil)
			}
		case *ssa.Panic:
			mk(in, "PANIC", "explicit panic "+describe(p, x.X), nil)
		case *ssa.Call:
			if f := x.Call.StaticCallee(); f != nil && funcPkgPath(f) == "strings" && f.Name() == "Repeat" {
				if k, ok := constInt(x.Call.Args[1]); ok && k >= 0 {
					return
				}
				mk(in, "NEG", "strings.Repeat count "+describe(p, x.Call.Args[1]), []constraint{leq(linConst(0), p.linOf(x.Call.Args[1]), "repeat count >= 0")})
			}
		}
	})
	return out
}

func describe(p *prover, v ssa.Value) string {
	// position-free description of a value: prefer source-level names
	v = p.resolve(v)
	switch x := v.(type) {
	case *ssa.Const:
		return x.Value.String()
	case *ssa.Parameter:
		return x.Name()
	case *ssa.Phi:
		if x.Comment != "" {
			return x.Comment
		}
	case *ssa.UnOp:
		if f, base := loadedField(x); f != nil {
			return describe(p, base) + "." + f.Name()
		}
		if x.Op == token.MUL {
			if ia, ok := x.X.(*ssa.IndexAddr); ok {
				return describe(p, ia.X) + "[" + describe(p, ia.Index) + "]"
			}
		}
	case *ssa.Field:
		return describe(p, x.X) + "." + fieldOfField(x).Name()
	case *ssa.BinOp:
		return describe(p, x.X) + x.Op.String() + describe(p, x.Y)
	case *ssa.Call:
		if b, ok := x.Call.Value.(*ssa.Builtin); ok && len(x.Call.Args) > 0 {
			return b.Name() + "(" + describe(p, x.Call.Args[0]) + ")"
		}
		return calleeDesc(&x.Call) + "()"
	case *ssa.Extract:
		if nx, ok := x.Tuple.(*ssa.Next); ok {
			if x.Index == 1 {
				return "rangeindex"
			}
			_ = nx
			return "rangevalue"
		}
		return describe(p, x.Tuple)
	case *ssa.Alloc:
		if x.Comment != "" {
			return x.Comment
		}
	case *ssa.MakeSlice:
		return "make"
	case *ssa.Slice:
		return describe(p, x.X) + "[:]"
	case *ssa.Convert:
		return describe(p, x.X)
	case *ssa.MakeInterface:
		return describe(p, x.X)
	}
	if v.Name() != "" && !strings.HasPrefix(v.Name(), "t") {
		return v.Name()
	}
	return "tmp"
}

func (ix *idxEngine) indexOb(p *prover, mk func(ssa.Instruction, string, string, []constraint) *idxOb, in ssa.Instruction, x, idx ssa.Value) {
	// arrays (and pointers to arrays) with constant in-range index are safe by type
	var alen int64 = -1
	switch t := x.Type().Underlying().(type) {
	case *types.Array:
		alen = t.Len()
	case *types.Pointer:
		if at, ok := t.Elem().Underlying().(*types.Array); ok {
			alen = at.Len()
		}
	case *types.Map:
		return
	}
	if k, ok := constInt(idx); ok && alen >= 0 && k >= 0 && k < alen {
		return
	}
	what := "index " + describe(p, x) + "[" + describe(p, idx) + "]"
	i := p.linOf(idx)
	l := p.lenOf(x)
	o := mk(in, "IDX", what, []constraint{leq(linConst(0), i, "index >= 0"), lt(i, l, "index < len")})
	_ = o
}

func (ix *idxEngine) sliceOb(p *prover, mk func(ssa.Instruction, string, string, []constraint) *idxOb, x *ssa.Slice) {
	if x.Low == nil && x.High == nil && x.Max == nil {
		return // x[:] cannot panic (nil array pointer aside)
	}
	var goals []constraint
	lo := linConst(0)
	if x.Low != nil {
		lo = p.linOf(x.Low)
		goals = append(goals, leq(linConst(0), lo, "low >= 0"))
	}
	capOrLen := p.lenOf(x.X)
	if _, isStr := x.X.Type().Underlying().(*types.Basic); !isStr {
		// for slices the bound is cap(x) >= len(x): proving against len is sufficient
	}
	if x.High != nil {
		hi := p.linOf(x.High)
		goals = append(goals, leq(lo, hi, "low <= high"), leq(hi, capOrLen, "high <= len (<= cap)"))
	} else {
		goals = append(goals, leq(lo, capOrLen, "low <= len"))
	}
	what := "slice " + describe(p, x.X) + "[" + boundDesc(p, x.Low) + ":" + boundDesc(p, x.High) + "]"
	mk(x, "SLC", what, goals)
}

func boundDesc(p *prover, v ssa.Value) string {
	if v == nil {
		return ""
	}
	return describe(p, v)
}

// discharge tries to prove every goal of o locally.
func (ix *idxEngine) discharge(o *idxOb) {
	p := ix.proverFor(o.Fn)
	if len(o.Goals) == 0 {
		return
	}
	all := true
	var failed constraint
	for _, g := range o.Goals {
		ok, _ := p.prove(g, o.In, nil, 0)
		if !ok {
			all = false
			failed = g
			break
		}
	}
	o.OK = all
	if all {
		o.How = "dominating guards / definitions"
	} else {
		o.How = "cannot show " + failed.why + ": " + failed.e.String() + " <= 0"
	}
}

// Run enumerates and discharges obligations in all library functions.
func (ix *idxEngine) Run() {
	if ix.Obls != nil {
		return
	}
	for _, fn := range ix.c.LibFuncs() {
		if fn.Name() == "GoString" || (fn.Parent() != nil && fn.Parent().Name() == "GoString") {
			continue
		}
		obs := ix.enumerate(fn)
		for _, o := range obs {
			ix.discharge(o)
		}
		ix.Obls = append(ix.Obls, obs...)
	}
	if ix.Obls == nil {
		ix.Obls = []*idxOb{}
	}
	ix.lift()
	ix.applyTable()
	sort.SliceStable(ix.Obls, func(i, j int) bool {
		a, b := ix.Obls[i], ix.Obls[j]
		if FuncName(a.Fn) != FuncName(b.Fn) {
			return FuncName(a.Fn) < FuncName(b.Fn)
		}
		return a.In.Pos() < b.In.Pos()
	})
}

// immutableField: no function of the module stores to f except while constructing a fresh object, and the
// owning struct is never overwritten whole through a pointer; so no call can change it.
func (ix *idxEngine) immutableField(f *types.Var) bool {
	if v, ok := ix.immut[f]; ok {
		return v
	}
	res := true
	for _, fs := range ix.c.StoresTo(f) {
		if !fs.Fresh {
			res = false
		}
	}
	if res {
		owner := ix.c.ownerOf(f)
		tname := strings.SplitN(owner, ".", 2)[0]
		for _, fn := range ix.c.LibFuncs() {
			eachInstr(fn, func(in ssa.Instruction) {
				st, ok := in.(*ssa.Store)
				if !ok {
					return
				}
				n := namedOf(st.Val.Type())
				if n == nil || n.Obj().Name() != tname {
					return
				}
				if _, isPtr := st.Val.Type().(*types.Pointer); isPtr {
					return
				}
				if _, isAlloc := st.Addr.(*ssa.Alloc); isAlloc {
					return
				}
				res = false
			})
		}
	}
	ix.immut[f] = res
	return res
}

// resultLenFacts: v is a slice/string result of a module function all of whose non-nil returns for that result
// have one length expressed over the callee's parameters (return make([]T, n)); then len(v) is that expression
// over the actual arguments. Returns that yield nil for this result must carry a definitely non-nil error, and
// in that case the fact is only offered where the caller has established that the error result is nil.
func (ix *idxEngine) resultLenFacts(p *prover, v ssa.Value, t string, at ssa.Instruction) []constraint {
	var call *ssa.Call
	k := 0
	switch x := v.(type) {
	case *ssa.Extract:
		call, _ = x.Tuple.(*ssa.Call)
		k = x.Index
	case *ssa.Call:
		call = x
	}
	if call == nil || at == nil {
		return nil
	}
	callee := call.Call.StaticCallee()
	if callee == nil || !inModule(callee) || callee.Blocks == nil || callee == p.fn {
		return nil
	}
	nres := callee.Signature.Results().Len()
	if k >= nres {
		return nil
	}
	errIdx := -1
	if nres > 1 && isErrorType(callee.Signature.Results().At(nres-1).Type()) {
		errIdx = nres - 1
	}
	pc := ix.proverFor(callee)
	var L *lin
	needErrNil := false
	for _, ret := range returnsOf(callee) {
		rv := results(ret)
		if len(rv) != nres {
			return nil
		}
		for _, e := range phiClosure(rv[k]) {
			if isNil(e) {
				if errIdx < 0 || !definitelyNonNilErr(rv[errIdx]) {
					return nil
				}
				needErrNil = true
				continue
			}
			l := pc.lenOf(e)
			if L == nil {
				L = &l
			} else if L.String() != l.String() {
				return nil
			}
		}
	}
	if L == nil {
		return nil
	}
	tr, ok := ix.translate(callee, constraint{*L, ""}, callSite{p.fn, call})
	if !ok {
		// not an exact length in the callee's parameters: what every successful return KNOWS about the length
		// (if len(hs) < n { return nil, err }; return hs, nil  gives  len(result) >= n)
		return ix.resultLenBounds(p, call, callee, k, errIdx, t, at)
	}
	if needErrNil {
		guarded := false
		for _, cf := range dominatingConds(at.Block()) {
			e, nn, isT := nilTest(cf.Cond)
			if !isT || (nn == 1) != cf.Val {
				continue
			}
			if ex, isEx := e.(*ssa.Extract); isEx && ex.Tuple == ssa.Value(call) && ex.Index == errIdx {
				guarded = true
			}
		}
		if !guarded {
			return nil
		}
	}
	why := "every successful return of " + FuncName(callee) + " yields a slice of this length"
	return []constraint{leq(linTerm(t), tr.e, why), leq(tr.e, linTerm(t), why)}
}

// errNilGuarded: `at` runs only where result #errIdx of call was tested nil.
func errNilGuarded(call *ssa.Call, errIdx int, at ssa.Instruction) bool {
	for _, cf := range expandConds(dominatingConds(at.Block())) {
		e, nn, isT := nilTest(cf.Cond)
		if !isT || (nn == 1) != cf.Val {
			continue
		}
		if ex, isEx := e.(*ssa.Extract); isEx && ex.Tuple == ssa.Value(call) && ex.Index == errIdx {
			return true
		}
	}
	return false
}

// resultLenBounds: linear facts between the length of result #k and the callee's parameters that hold at EVERY
// return which hands back a non-nil slice (the other returns must hand back nil with a definitely non-nil error,
// and the use must then sit behind the caller's err == nil test).  The facts are the branch conditions that
// dominate those returns, restricted to len(result) and parameter terms, translated to the call site.
func (ix *idxEngine) resultLenBounds(p *prover, call *ssa.Call, callee *ssa.Function, k, errIdx int, t string, at ssa.Instruction) []constraint {
	pc := ix.proverFor(callee)
	nres := callee.Signature.Results().Len()
	var common map[string]constraint
	failing := false
	for _, ret := range returnsOf(callee) {
		rv := results(ret)
		if len(rv) != nres {
			return nil
		}
		if errIdx >= 0 && definitelyNonNilErr(rv[errIdx]) {
			failing = true
			continue
		}
		e := pc.resolve(rv[k])
		if _, isPhi := e.(*ssa.Phi); isPhi || isNil(e) {
			return nil
		}
		lt := pc.lenOf(e)
		if len(lt.coef) != 1 || lt.k != 0 {
			return nil
		}
		var lterm string
		for tm, cf := range lt.coef {
			if cf != 1 {
				return nil
			}
			lterm = tm
		}
		here := map[string]constraint{}
		for _, cf := range expandConds(dominatingConds(ret.Block())) {
			for _, cs := range pc.condConstraints(cf.Cond, cf.Val) {
				a, has := cs.e.coef[lterm]
				if !has || a == 0 {
					continue
				}
				rest := lin{coef: map[string]int64{}, k: cs.e.k}
				for tm, c2 := range cs.e.coef {
					if tm != lterm {
						rest.coef[tm] = c2
					}
				}
				tr, ok := ix.translate(callee, constraint{rest, ""}, callSite{p.fn, call})
				if !ok {
					continue
				}
				out := constraint{tr.e.add(linTerm(t).scale(a)), "every successful return of " + FuncName(callee) + " is behind this test on the length of its result"}
				here[out.e.String()] = out
			}
		}
		if common == nil {
			common = here
		} else {
			for key := range common {
				if _, ok := here[key]; !ok {
					delete(common, key)
				}
			}
		}
	}
	if len(common) == 0 {
		return nil
	}
	if failing && !errNilGuarded(call, errIdx, at) {
		return nil
	}
	keys := make([]string, 0, len(common))
	for key := range common {
		keys = append(keys, key)
	}
	sort.Strings(keys)
	var out []constraint
	for _, key := range keys {
		out = append(out, common[key])
	}
	return out
}

// funcResultNonNegIdx: result #k of f is >= 0 at every return (merged returns taken apart case by case).
func (ix *idxEngine) funcResultNonNegIdx(f *ssa.Function, k int) bool {
	if ix.resNN == nil {
		ix.resNN = map[string]bool{}
	}
	key := fmt.Sprintf("%p#%d", f, k)
	if v, ok := ix.resNN[key]; ok {
		return v
	}
	ix.resNN[key] = true // coinductive
	ok := len(f.Blocks) > 0 && k < f.Signature.Results().Len()
	if ok {
		p := ix.proverFor(f)
		cases := returnCases(f)
		if len(cases) == 0 {
			ok = false
		}
		for _, rc := range cases {
			if k >= len(rc.Vals) {
				ok = false
				break
			}
			at := ssa.Instruction(rc.Ret)
			var extra []constraint
			if rc.Via != rc.Ret.Block() {
				last := rc.Via.Instrs[len(rc.Via.Instrs)-1]
				at = last
				if pi, isIf := last.(*ssa.If); isIf && rc.Via.Succs[0] != rc.Via.Succs[1] && rc.Into != nil {
					for si, sb := range rc.Via.Succs {
						if sb == rc.Into {
							extra = append(extra, p.condConstraints(pi.Cond, si == 0)...)
						}
					}
				}
			}
			if good, _ := p.prove(leq(linConst(0), p.linOf(rc.Vals[k]), "result >= 0"), at, extra, 0); !good {
				ok = false
				if os.Getenv("TABDBG") == "resnn" {
					fmt.Fprintf(os.Stderr, "resnn %s #%d case %d: cannot show %s >= 0\n", f.Name(), k, rc.N, p.linOf(rc.Vals[k]).String())
				}
			}
		}
	}
	ix.resNN[key] = ok
	return ok
}
