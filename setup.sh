#!/bin/sh
# Builds the static checker from /verif/checker, offline.
set -e
cd "$(dirname "$0")"
export GOFLAGS=-mod=mod GOPROXY=off GOSUMDB=off GOTOOLCHAIN=local
unset GOWORK
mkdir -p bin evidence
cd checker && go build -o ../bin/tabverif .
