#!/bin/sh
# usage: ./run.sh [tree]   (default /repo) — runs the defect demonstrations
# against a tabular source tree, in a scratch copy outside /verif and /repo.
set -e
tree=${1:-/repo}
export GOFLAGS=-mod=mod GOPROXY=off GOSUMDB=off GOTOOLCHAIN=local
unset GOWORK
d=$(mktemp -d /tmp/tabdefects.XXXXXX)
trap 'rm -rf "$d"' EXIT
cp "$(dirname "$0")/defects_test.go" "$d/"
cp "$tree/go.sum" "$d/"
cat > "$d/go.mod" <<EOM
module defects

go 1.19

require go.pennock.tech/tabular v0.0.0

replace go.pennock.tech/tabular => $tree
EOM
cd "$d" && go test -count=1 ${RUNARGS:-} ./... 2>&1 | grep -E '^(---|ok|FAIL|PASS|panic)' 
