// Demonstrations of the genuine defects D1..D16 (see DESIGN.md section 4).
// Each test fails on the tree before its "fix:" commit and passes after it.
// Not part of any registered check (the checks are static); run by hand with
// ./run.sh <path-to-tabular-tree>.
package defects

import (
	"bytes"
	"errors"
	"fmt"
	"strings"
	"testing"

	ejson "encoding/json"

	"go.pennock.tech/tabular"
	"go.pennock.tech/tabular/csv"
	"go.pennock.tech/tabular/json"
	"go.pennock.tech/tabular/markdown"
	"go.pennock.tech/tabular/properties/align"
	"go.pennock.tech/tabular/texttable"
)

func noPanic(t *testing.T, what string, f func()) {
	t.Helper()
	defer func() {
		if r := recover(); r != nil {
			t.Errorf("%s: panic: %v", what, r)
		}
	}()
	f()
}

func TestD1_rune(t *testing.T) {
	c := tabular.NewCell('x')
	if c.String() != "x" || c.Empty() {
		t.Errorf("NewCell('x'): String()=%q Empty()=%v", c.String(), c.Empty())
	}
}

func TestD2_addAfterAttach(t *testing.T) {
	tb := tabular.New()
	r := tb.AppendNewRow()
	r.Add(tabular.NewCell("a")).Add(tabular.NewCell("b"))
	if tb.NColumns() != 2 || tb.Column(2) == nil {
		t.Errorf("NColumns=%d Column(2)=%v", tb.NColumns(), tb.Column(2))
	}
}

func TestD3_csvZeroCellRow(t *testing.T) {
	tb := tabular.New()
	tb.AddRowItems("a")
	tb.AddRowItems()
	noPanic(t, "csv", func() {
		s, err := csv.Render(tb)
		if err != nil || s != "\"a\"\n\"\"\n" {
			t.Errorf("csv: %q %v", s, err)
		}
	})
}

func TestD4_markdownZeroCellRow(t *testing.T) {
	tb := tabular.New()
	tb.AddHeaders("h")
	tb.AddRowItems()
	noPanic(t, "markdown", func() {
		s, err := markdown.Render(tb)
		if err != nil {
			t.Errorf("markdown: %v", err)
		}
		for _, l := range strings.Split(strings.TrimSuffix(s, "\n"), "\n") {
			if strings.Count(l, "|") != 2 {
				t.Errorf("markdown line %q", l)
			}
		}
	})
}

// D5 needs a row longer than the column count; through the public API that is
// only reachable via D2, so this shows the two together on the unfixed tree
// and simply renders on the fixed one.
func TestD5_texttableLongRow(t *testing.T) {
	tb := tabular.New()
	r := tb.AppendNewRow()
	r.Add(tabular.NewCell("a")).Add(tabular.NewCell("b"))
	noPanic(t, "texttable", func() {
		if _, err := texttable.Render(tb); err != nil {
			t.Errorf("texttable: %v", err)
		}
	})
}

type tall struct{}

func (tall) String() string { return "a\nb\nc" }
func (tall) Height() int    { return 1 }

func TestD6_declaredHeightTooSmall(t *testing.T) {
	tb := tabular.New()
	tb.AddRowItems(tall{})
	noPanic(t, "texttable", func() {
		if _, err := texttable.Render(tb); err != nil {
			t.Errorf("texttable: %v", err)
		}
	})
}

type failAt struct {
	n, k int
	buf  bytes.Buffer
}

func (f *failAt) Write(p []byte) (int, error) {
	f.n++
	if f.n == f.k {
		return 0, errors.New("boom")
	}
	return f.buf.Write(p)
}

func TestD7_markdownFirstWriteUnchecked(t *testing.T) {
	tb := tabular.New()
	tb.AddHeaders("h")
	tb.AddRowItems("v")
	full, _ := markdown.Render(tb)
	w := &failAt{k: 1}
	err := markdown.RenderTo(tb, w)
	if err == nil {
		t.Errorf("failing first write not reported")
	}
	if !strings.HasPrefix(full, w.buf.String()) {
		t.Errorf("accepted %q is not a prefix of %q", w.buf.String(), full)
	}
}

func TestD8_wrapperAsOwner(t *testing.T) {
	tb := csv.New()
	tb.AddHeaders("h")
	tb.AddRowItems("value")
	s, err := texttable.Render(tb)
	if err != nil || !strings.Contains(s, "value") {
		t.Errorf("texttable.Render(csv.New()...): %v\n%s", err, s)
	}
}

type recorder struct {
	log  *[]string
	name string
}

func (r recorder) UpdateProperties(po tabular.PropertyOwner) error {
	*r.log = append(*r.log, r.name)
	return nil
}

func TestD9a_tablePostCell(t *testing.T) {
	tb := tabular.New()
	tb.AddRowItems("v")
	var log []string
	if err := tb.RegisterPropertyCallback(tb, tabular.CB_AT_RENDER_POSTCELL, tabular.CB_ON_CELL, recorder{&log, "tpost"}); err != nil {
		t.Fatal(err)
	}
	tb.InvokeRenderCallbacks()
	if len(log) != 1 {
		t.Errorf("table post-cell callback fired %d times", len(log))
	}
}

type setter struct{}

func (setter) UpdateProperties(po tabular.PropertyOwner) error {
	return po.SetProperty("seen", true)
}

func TestD9b_columnCallbackOnCopy(t *testing.T) {
	tb := tabular.New()
	tb.AddRowItems("v")
	if err := tb.RegisterPropertyCallback(tb.Column(1), tabular.CB_AT_RENDER_PRECELL, tabular.CB_ON_ITSELF, setter{}); err != nil {
		t.Fatal(err)
	}
	tb.InvokeRenderCallbacks()
	if tb.Column(1).GetProperty("seen") != true {
		t.Errorf("property set by a column callback is lost")
	}
}

type failing struct{}

func (failing) UpdateProperties(po tabular.PropertyOwner) error { return errors.New("cb failed") }

func TestD10_unattachedRowCallbackError(t *testing.T) {
	tb := tabular.New()
	r := tabular.NewRow()
	if err := tb.RegisterPropertyCallback(r, tabular.CB_AT_ADD, tabular.CB_ON_CELL, failing{}); err != nil {
		t.Fatal(err)
	}
	r.Add(tabular.NewCell("x"))
	tb.AddRow(r)
	if len(tb.Errors()) != 1 {
		t.Errorf("errors: %v", tb.Errors())
	}
}

func TestD11a_adoptListWithNil(t *testing.T) {
	ec := &tabular.ErrorContainer{}
	l := []error{nil, errors.New("e")}
	ec.AddErrorList(l)
	for _, e := range ec.Errors() {
		if e == nil {
			t.Errorf("nil entry in %v", ec.Errors())
		}
	}
	if len(ec.Errors()) != 1 {
		t.Errorf("len %d", len(ec.Errors()))
	}
	l[1] = nil
	for _, e := range ec.Errors() {
		if e == nil {
			t.Errorf("container aliases the caller's slice")
		}
	}
}

func TestD11b_nilReceiver(t *testing.T) {
	noPanic(t, "AddErrorList on nil", func() {
		var ec *tabular.ErrorContainer
		ec.AddErrorList([]error{errors.New("e")})
	})
}

func TestD12a_copySharesChain(t *testing.T) {
	a := tabular.NewCell("x")
	a.SetProperty("k1", 1)
	a.SetProperty("k2", 2)
	a.SetProperty("k3", 3)
	b := a // by-value copy, as Row.Add(c Cell) makes
	b.SetProperty("k1", nil)
	if a.GetProperty("k1") != 1 {
		t.Errorf("clearing k1 on the copy changed the original: %v", a.GetProperty("k1"))
	}
	b.SetProperty("k2", 22)
	if a.GetProperty("k2") != 2 {
		t.Errorf("setting k2 on the copy changed the original: %v", a.GetProperty("k2"))
	}
}

func TestD12b_staleColumnHandle(t *testing.T) {
	tb := tabular.New()
	tb.AddHeaders("a")
	h := tb.Column(1)
	items := make([]interface{}, 40)
	for i := range items {
		items[i] = i
	}
	tb.AddRowItems(items...)
	h.SetProperty("k", "v")
	if tb.Column(1).GetProperty("k") != "v" {
		t.Errorf("handle taken before growth no longer addresses column 1")
	}
}

func TestD13_markdownDefaultAlign(t *testing.T) {
	tb := tabular.New()
	tb.AddHeaders("h1", "h2")
	tb.AddRowItems("a", "b")
	tb.Column(0).SetProperty(align.PropertyType, align.Right)
	tb.Column(2).SetProperty(align.PropertyType, align.Center)
	s, err := markdown.Render(tb)
	if err != nil {
		t.Fatal(err)
	}
	lines := strings.Split(s, "\n")
	cells := strings.Split(lines[1], "|")
	if !strings.HasSuffix(cells[1], "-:") || strings.HasPrefix(cells[1], ":") {
		t.Errorf("column 1 delimiter %q not right-aligned", cells[1])
	}
	if !strings.HasPrefix(cells[2], ":-") || !strings.HasSuffix(cells[2], "-:") {
		t.Errorf("column 2 delimiter %q not centred", cells[2])
	}
}

func TestD14_jsonTrailingSeparator(t *testing.T) {
	for _, shape := range []string{"os", "oso", "so", "oss", "sos", "ossso", "s", ""} {
		tb := tabular.New()
		tb.AddHeaders("h")
		n := 0
		for _, c := range shape {
			if c == 'o' {
				tb.AddRowItems(n)
				n++
			} else {
				tb.AddSeparator()
			}
		}
		s, err := json.Render(tb)
		if err != nil {
			t.Errorf("%q: %v", shape, err)
			continue
		}
		var v []map[string]interface{}
		if err := ejson.Unmarshal([]byte(s), &v); err != nil {
			t.Errorf("%q: invalid JSON %q: %v", shape, s, err)
		} else if len(v) != n {
			t.Errorf("%q: %d objects, want %d", shape, len(v), n)
		}
	}
}

func TestD15_separatorMisuse(t *testing.T) {
	tb := tabular.New()
	tb.AddSeparator()
	tb.AllRows()[0].Add(tabular.NewCell("x"))
	if len(tb.Errors()) != 1 {
		t.Errorf("misuse error not in the table's list: %v", tb.Errors())
	}
}

type esc struct{}

func (esc) String() string         { return "\x1b[1mbold\x1b[0m" }
func (esc) TerminalCellWidth() int { return 4 }

func TestD16_declaredWidth(t *testing.T) {
	tb := tabular.New()
	tb.AddRowItems(esc{}, "x")
	tb.AddRowItems("abcdefgh", "y")
	tt := texttable.Wrap(tb)
	tt.SetDecorationNamed("ascii-simple")
	s, err := tt.Render()
	if err != nil {
		t.Fatal(err)
	}
	lines := strings.Split(strings.TrimSuffix(s, "\n"), "\n")
	// "| " + text + pad + " | x |": the escape-carrying line must be laid out
	// as 4 wide in a column of 8, i.e. padded with 4 spaces.
	want := "| " + esc{}.String() + "    " + " | x |"
	if lines[1] != want {
		t.Errorf("got  %q\nwant %q", lines[1], want)
	}
	_ = fmt.Sprint
}

type namedCB struct {
	log  *[]string
	name string
}

func (n namedCB) UpdateProperties(po tabular.PropertyOwner) error {
	*n.log = append(*n.log, n.name)
	return nil
}

// D17: callback lists are slices inside the Cell struct; cells are copied by value (Row.Add), so copies share
// the list's backing array, and once that array has spare capacity a registration on one copy overwrites the
// registration made on another.
func TestD17_callbackListsSharedByCellCopies(t *testing.T) {
	tb := tabular.New()
	var log []string
	c := tabular.NewCell("x")
	for _, n := range []string{"a1", "a2", "a3"} { // three appends leave cap 4, len 3
		if err := tb.RegisterPropertyCallback(&c, tabular.CB_AT_RENDER, tabular.CB_ON_ITSELF, namedCB{&log, n}); err != nil {
			t.Fatal(err)
		}
	}
	r := tb.AppendNewRow()
	r.Add(c).Add(c)
	c1, _ := tb.CellAt(tabular.CellLocation{Row: 1, Column: 1})
	c2, _ := tb.CellAt(tabular.CellLocation{Row: 1, Column: 2})
	tb.RegisterPropertyCallback(c1, tabular.CB_AT_RENDER, tabular.CB_ON_ITSELF, namedCB{&log, "B-on-first"})
	tb.RegisterPropertyCallback(c2, tabular.CB_AT_RENDER, tabular.CB_ON_ITSELF, namedCB{&log, "C-on-second"})
	tb.InvokeRenderCallbacks()
	nb, nc := 0, 0
	for _, l := range log {
		if l == "B-on-first" {
			nb++
		}
		if l == "C-on-second" {
			nc++
		}
	}
	if nb != 1 || nc != 1 {
		t.Errorf("B fired %d times, C fired %d times (each registered once on one cell): %v", nb, nc, log)
	}
}
